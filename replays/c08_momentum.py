"""Native replay for C08: the momentum draw of every system class is an exactly linear image L z of the standard-normal draws with
L L^T == metric at the current position (projected for constrained systems), and the partial refresh keeps a^2 + c^2 == 1 for the
coefficient in force at the time of the call (also after the public attribute is reassigned).  The generator is replaced by a stub
returning chosen vectors so that L is read off exactly (no Monte-Carlo error).  Exit 1 + REPRODUCED otherwise."""
import sys

import numpy as np

from mici import matrices as M, systems as S, transitions as T
from mici.states import ChainState

n = 3
gen = np.random.default_rng(8)
bad = []


class StubRng:
    def __init__(self, z):
        self.z = np.asarray(z, dtype=float)

    def standard_normal(self, size=None, **kw):
        return self._take(size)

    def normal(self, loc=0.0, scale=1.0, size=None):
        return loc + scale * self._take(size)

    def _take(self, size):
        if size is None:
            return float(self.z[0])
        k = int(np.prod(size))
        return self.z[:k].reshape(size).copy()


def ell(q):
    return 0.5 * q @ q


def gell(q):
    return q


def linear_map(system, state):
    cols = []
    for i in range(n):
        e = np.zeros(n)
        e[i] = 1.0
        cols.append(np.asarray(system.sample_momentum(state, StubRng(e)), dtype=float))
    zero = np.asarray(system.sample_momentum(state, StubRng(np.zeros(n))), dtype=float)
    L = np.stack(cols, 1) - zero[:, None]
    z = gen.standard_normal(n)
    lin = np.asarray(system.sample_momentum(state, StubRng(z)), dtype=float)
    return L, zero, np.max(np.abs(lin - (zero + L @ z)))


A = gen.standard_normal((n, n))
spd = A @ A.T + n * np.eye(n)
chol = np.linalg.cholesky(spd)
U = gen.standard_normal((n, 1))
metrics = {
    "identity": (None, np.eye(n)),
    "scalar": (M.PositiveScaledIdentityMatrix(2.5, n), 2.5 * np.eye(n)),
    "diagonal": (np.array([0.5, 2.0, 3.0]), np.diag([0.5, 2.0, 3.0])),
    "dense": (spd, spd),
    "cholesky": (M.TriangularFactoredPositiveDefiniteMatrix(chol, factor_is_lower=True), spd),
    "lowrank": (M.PositiveDefiniteLowRankUpdateMatrix(U, M.PositiveDiagonalMatrix(np.array([1.0, 2.0, 3.0]))), np.diag([1.0, 2.0, 3.0]) + U @ U.T),
    "block": (M.PositiveDefiniteBlockDiagonalMatrix([M.DensePositiveDefiniteMatrix(spd[:2, :2]), M.PositiveScaledIdentityMatrix(1.5, 1)]),
              np.block([[spd[:2, :2], np.zeros((2, 1))], [np.zeros((1, 2)), 1.5 * np.eye(1)]])),
}
q = gen.standard_normal(n)
for name, (marg, Mv) in metrics.items():
    for cls in (S.EuclideanMetricSystem, S.GaussianEuclideanMetricSystem):
        system = cls(ell, metric=marg, grad_neg_log_dens=gell)
        st = ChainState(pos=q.copy(), mom=None, dir=1)
        L, zero, nonlin = linear_map(system, st)
        err = np.max(np.abs(L @ L.T - Mv))
        if err > 1e-9 or nonlin > 1e-9 or np.max(np.abs(zero)) > 1e-12:
            bad.append((cls.__name__, name, float(err), float(nonlin)))


def metric_fn(q):
    B = np.array([[1.0 + q[0] ** 2, 0.3 * q[1], 0.0], [0.3 * q[1], 2.0 + q[2] ** 2, 0.1], [0.0, 0.1, 1.5 + q[0] ** 2]])
    return B


def chol_fn(q):
    return np.linalg.cholesky(metric_fn(q))


riem = [
    ("DenseRiemannian", S.DenseRiemannianMetricSystem(ell, metric_fn, vjp_metric_func=lambda q: (lambda v: np.zeros(n)), grad_neg_log_dens=gell), metric_fn(q)),
    ("CholeskyRiemannian", S.CholeskyFactoredRiemannianMetricSystem(ell, chol_fn, vjp_metric_chol_func=lambda q: (lambda v: np.zeros(n)), grad_neg_log_dens=gell), metric_fn(q)),
    ("DiagonalRiemannian", S.DiagonalRiemannianMetricSystem(ell, lambda q: 1.0 + q**2, vjp_metric_diagonal_func=lambda q: (lambda v: 2 * q * v), grad_neg_log_dens=gell), np.diag(1.0 + q**2)),
    ("ScalarRiemannian", S.ScalarRiemannianMetricSystem(ell, lambda q: 1.0 + q @ q, vjp_metric_scalar_func=lambda q: (lambda v: 2 * q * v), grad_neg_log_dens=gell), (1.0 + q @ q) * np.eye(n)),
]
for name, system, Mv in riem:
    st = ChainState(pos=q.copy(), mom=None, dir=1)
    L, zero, nonlin = linear_map(system, st)
    err = np.max(np.abs(L @ L.T - Mv))
    if err > 1e-9 or nonlin > 1e-9:
        bad.append((name, "position-dependent", float(err), float(nonlin)))

# constrained: projected law
for name, (marg, Mv) in metrics.items():
    if name in ("lowrank", "block"):
        continue
    system = S.DenseConstrainedEuclideanMetricSystem(ell, constr=lambda q: np.array([q @ q - 1.0]), metric=marg, grad_neg_log_dens=gell,
                                                     jacob_constr=lambda q: 2 * q[None, :], mhp_constr=lambda q: (lambda m: np.zeros(n)), dens_wrt_hausdorff=True)
    qc = q / np.linalg.norm(q)
    st = ChainState(pos=qc.copy(), mom=None, dir=1)
    L, zero, nonlin = linear_map(system, st)
    J = 2 * qc[None, :]
    Minv = np.linalg.inv(Mv)
    P = np.eye(n) - J.T @ np.linalg.inv(J @ Minv @ J.T) @ J @ Minv
    err = np.max(np.abs(L @ L.T - P @ Mv @ P.T))
    if err > 1e-9 or nonlin > 1e-9:
        bad.append(("DenseConstrainedEuclidean", name, float(err), float(nonlin)))


# partial refresh: coefficient identity with the coefficient in force at call time
class Sys:
    def sample_momentum(self, state, rng):
        return np.array([10.0, 20.0, 30.0])


for c0, c1 in ((0.3, 0.3), (0.3, 0.8), (0.9, 0.2)):
    tr = T.CorrelatedMomentumTransition(Sys(), mom_resample_coeff=c0)
    tr.mom_resample_coeff = c1
    p = np.array([1.0, 0.0, 0.0])
    st = ChainState(pos=q.copy(), mom=p.copy(), dir=1)
    out, _ = tr.sample(st, None)
    a = out.mom[1] / 20.0  # weight of the fresh draw
    b = out.mom[0] - a * 10.0  # weight of the old momentum
    if abs(a * a + b * b - 1.0) > 1e-12 or abs(a - c1) > 1e-12:
        bad.append(("CorrelatedMomentumTransition", f"coeff {c0}->{c1}", float(a * a + b * b), 0.0))

if bad:
    print("REPRODUCED: momentum update does not preserve N(0, metric):", bad[:6])
    sys.exit(1)
print("not reproduced: all momentum draws are L z with L L^T == metric; partial refresh keeps a^2 + c^2 == 1")
