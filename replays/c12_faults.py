"""Native replay for C12: inject NaN / inf / ValueError / LinAlgError into the user model functions at every call index
of short chains, for several system / integrator / transition combinations; transition.sample must return, keep the state
finite, and iterative solvers must raise only ConvergenceError.  Exit 1 + REPRODUCED on a crash or a non-finite state."""
import sys

import numpy as np

from mici import integrators as I, solvers as so, systems as S, transitions as T
from mici.errors import ConvergenceError, Error
from mici.states import ChainState


class Injector:
    def __init__(self):
        self.count, self.at, self.kind = 0, None, None

    def wrap(self, f, names=None):
        def g(q):
            self.count += 1
            if self.at is not None and self.count == self.at:
                if self.kind == "value_error":
                    raise ValueError("injected")
                if self.kind == "linalg":
                    raise np.linalg.LinAlgError("injected")
                v = f(q)
                bad = {"nan": np.nan, "inf": np.inf, "-inf": -np.inf}[self.kind]
                return v * 0 + bad
            return f(q)
        return g


def cases():
    out = []
    # constrained system on the unit sphere, three solvers
    for solver in (so.solve_projection_onto_manifold_newton, so.solve_projection_onto_manifold_quasi_newton,
                   so.solve_projection_onto_manifold_newton_with_line_search):
        def make(inj, solver=solver):
            sysm = S.DenseConstrainedEuclideanMetricSystem(
                inj["dens"].wrap(lambda q: 0.5 * q @ q), inj["constr"].wrap(lambda q: np.array([q @ q - 1.0])),
                grad_neg_log_dens=inj["grad"].wrap(lambda q: q), jacob_constr=inj["jac"].wrap(lambda q: 2 * q[None, :]))
            integ = I.ConstrainedLeapfrogIntegrator(sysm, 0.3, n_inner_step=2, projection_solver=solver)
            q = np.array([0.6, 0.8, 0.0])
            return sysm, integ, q
        out.append((f"constrained/{solver.__name__}", make, ["dens", "grad", "constr", "jac"], ["nan", "inf"]))

    def make_riem(inj):
        sysm = S.DenseRiemannianMetricSystem(inj["dens"].wrap(lambda q: 0.5 * q @ q),
                                             inj["metric"].wrap(lambda q: np.eye(2) * (1 + q @ q)),
                                             vjp_metric_func=lambda q: (lambda v: 2 * q * np.trace(v)),
                                             grad_neg_log_dens=inj["grad"].wrap(lambda q: q))
        return sysm, I.ImplicitLeapfrogIntegrator(sysm, 0.2), np.array([0.3, -0.4])
    out.append(("riemannian/implicit-leapfrog", make_riem, ["dens", "grad", "metric"], ["nan", "inf"]))

    def make_riem_mid(inj):
        sysm, _, q = make_riem(inj)
        return sysm, I.ImplicitMidpointIntegrator(sysm, 0.2), q
    out.append(("riemannian/implicit-midpoint", make_riem_mid, ["dens", "grad", "metric"], ["nan", "inf"]))

    def make_euc(inj):
        sysm = S.EuclideanMetricSystem(inj["dens"].wrap(lambda q: 0.5 * q @ q), grad_neg_log_dens=inj["grad"].wrap(lambda q: q))
        return sysm, I.LeapfrogIntegrator(sysm, 0.3), np.array([0.3, -0.4])
    out.append(("euclidean/leapfrog", make_euc, ["dens", "grad"], ["nan", "inf", "-inf"]))
    return out


def run_chain(make, names, which, kind, at, trans_kind):
    inj = {n: Injector() for n in names + ["dens", "grad", "constr", "jac", "metric"]}
    sysm, integ, q = make(inj)
    rng = np.random.default_rng(5)
    st = ChainState(pos=q.copy(), mom=None, dir=1)
    st.mom = sysm.sample_momentum(st, rng)
    if trans_kind == "static":
        tr = T.MetropolisStaticIntegrationTransition(sysm, integ, 3)
    else:
        tr = T.MultinomialDynamicIntegrationTransition(sysm, integ, max_tree_depth=3)
    sysm.h(st)
    inj[which].at, inj[which].kind = inj[which].count + at, kind
    for _ in range(3):
        st.mom = sysm.sample_momentum(st, rng)
        st, stats = tr.sample(st, rng)
        if not (np.all(np.isfinite(st.pos)) and np.all(np.isfinite(st.mom))):
            return f"non-finite chain state after fault"
        nan_stats = [k for k, v in (stats or {}).items() if isinstance(v, float) and v != v]
        if nan_stats:
            return f"statistics {nan_stats} are NaN after the fault (poisons step-size adaptation)"
    return None


def solver_level(fails):
    """faults inside the iterative solves"""
    for solve in (so.solve_fixed_point_direct, so.solve_fixed_point_steffensen):
        for kind in ("nan", "inf", "value_error", "linalg"):
            for at in range(1, 6):
                inj = Injector()
                inj.at, inj.kind = at, kind
                f = inj.wrap(lambda x: 0.5 * np.cos(x))
                try:
                    x = solve(f, np.array([0.3, 0.1]))
                    if not np.all(np.isfinite(x)) or np.max(np.abs(0.5 * np.cos(x) - x)) > 1e-6:
                        fails.append(f"{solve.__name__} returned an unconverged / non-finite result with {kind} at call {at}")
                except ConvergenceError:
                    pass
                except Exception as e:  # noqa: BLE001
                    fails.append(f"{solve.__name__}: {type(e).__name__} escaped with {kind} at call {at}")


def main():
    fails = []
    solver_level(fails)
    for name, make, names, kinds in cases():
        for which in names:
            for kind in kinds:
                for at in range(1, 32 if which == "metric" else 13):
                    for tk in ("static", "dynamic"):
                        try:
                            r = run_chain(make, names, which, kind, at, tk)
                        except Error as e:
                            r = f"mici.errors.{type(e).__name__} escaped Transition.sample: {e}"
                        except Exception as e:  # noqa: BLE001
                            r = f"{type(e).__name__} escaped Transition.sample: {e}"
                        if r:
                            fails.append(f"{name} [{tk} transition], {kind} returned by `{which}` at call +{at}: {r}")
                            break
                    else:
                        continue
                    break
    if fails:
        print("REPRODUCED:", fails[0])
        for f in fails[1:8]:
            print("  also:", f)
        sys.exit(1)
    print("not reproduced")


main()
