"""Native replay of a dimension-generic system obligation (Engine D witness, vf/props/generic_systems.py) against the real code with numpy.

usage: generic_systems.py '<json witness: {"metric": <label>, "constrained": bool, "reassigned": bool, "obligation": <short id>, ...}>'

The system of the witness (Euclidean / dense constrained, the named metric variant, optionally constructed with another metric first and
the metric attribute assigned afterwards -- what the metric adapters do) is built over random arrays at n = 4, k = 2 and two random
seeds; EVERY obligation of the generic harness is evaluated with dense numpy linear algebra as the reference and the named one decides.
Exit 1 and print REPRODUCED on a mismatch (or an exception from the library) in the named obligation; exit 0 otherwise."""
import json
import sys

import numpy as np

from mici import matrices as M, systems as S
from mici.states import ChainState

N, K = 4, 2


class Rng:
    def __init__(self, z):
        self.z, self.calls = z, []

    def standard_normal(self, size=None):
        self.calls.append(size if isinstance(size, tuple) else (size,))
        return self.z.copy()

    def normal(self, loc=0.0, scale=1.0, size=None):
        self.calls.append(size if isinstance(size, tuple) else (size,))
        return loc + scale * self.z


def pd(rng, n):
    a = rng.standard_normal((n, n))
    return a @ a.T + n * np.eye(n)


def metric(label, rng):
    """-> (constructor argument, dense M)"""
    if "contract stub" in label:
        a = pd(rng, N)
        return M.DensePositiveDefiniteMatrix(a), a
    if label.startswith("default"):
        return None, np.eye(N)
    if label.startswith("IdentityMatrix"):
        return M.IdentityMatrix(N), np.eye(N)
    if "positive scaled identity" in label:
        return M.PositiveScaledIdentityMatrix(1.7, N), 1.7 * np.eye(N)
    if "1-D array" in label:
        d = rng.uniform(0.5, 2.0, N)
        return d, np.diag(d)
    if "2-D positive definite" in label:
        a = pd(rng, N)
        return a, a
    if "low-rank" in label:
        f, d = rng.standard_normal((N, K)) * 0.6, rng.uniform(0.5, 2.0, N)
        return M.PositiveDefiniteLowRankUpdateMatrix(M.DenseRectangularMatrix(f), M.PositiveDiagonalMatrix(d)), np.diag(d) + f @ f.T
    raise SystemExit(f"unknown metric label {label!r}")


def close(a, b):
    a, b = np.asarray(a, dtype=float), np.asarray(b, dtype=float)
    return a.shape == b.shape and bool(np.all(np.isfinite(a))) and float(np.abs(a - b).max(initial=0.0)) <= 1e-8 * (1 + float(np.abs(b).max(initial=0.0)))


def evaluate(w, seed):
    rng = np.random.default_rng(seed)
    marg, Mm = metric(w["metric"], rng)
    marg0 = M.DensePositiveDefiniteMatrix(pd(rng, N)) if w.get("reassigned") else marg
    q, p, z, v, g = (rng.standard_normal(N) for _ in range(5))
    J, c = rng.standard_normal((K, N)), rng.standard_normal(K)
    X = rng.standard_normal((N, 3))
    t, s = 0.37, -0.81
    con = bool(w.get("constrained"))
    bad = {}

    def nld(x):
        return 0.0
    if con:
        system = S.DenseConstrainedEuclideanMetricSystem(nld, lambda x: c.copy(), metric=marg0, grad_neg_log_dens=lambda x: g.copy(),
                                                         jacob_constr=lambda x: J.copy(), mhp_constr=lambda x: (lambda m: np.zeros(N)))
    else:
        system = S.EuclideanMetricSystem(nld, metric=marg0, grad_neg_log_dens=lambda x: g.copy())
    if w.get("reassigned"):
        system.metric = marg if marg is not None else M.IdentityMatrix(N)
    Mi = np.linalg.inv(Mm)

    def state():
        return ChainState(pos=q.copy(), mom=p.copy(), dir=1)

    def flow(st, dt):
        system.h2_flow(st, dt)
        return st

    def chk(oid, got_fn, want):
        try:
            got = got_fn()
            if not close(got, want):
                bad[oid] = f"got {np.round(np.asarray(got, dtype=float), 6).tolist()} want {np.round(np.asarray(want, dtype=float), 6).tolist()}"
        except Exception as e:  # noqa: BLE001
            bad[oid] = f"exception {type(e).__name__}: {e}"
    chk("metric-inverse-is-the-inverse", lambda: Mm @ (system.metric.inv @ np.eye(N)), np.eye(N))
    chk("dh2_dmom-is-inverse-metric-times-momentum", lambda: system.dh2_dmom(state()), Mi @ p)
    chk("h2-is-half-quadratic-form", lambda: system.h2(state()), 0.5 * p @ Mi @ p)
    chk("dh2_dmom-is-gradient-of-h2", lambda: system.dh2_dmom(state()), Mi @ p)
    chk("dh2_dpos-is-zero", lambda: system.dh2_dpos(state()), np.zeros(N))
    chk("h2_flow-position", lambda: flow(state(), t).pos, q + t * (Mi @ p))
    chk("h2_flow-momentum-unchanged", lambda: flow(state(), t).mom, p)
    chk("h2_flow-group-law", lambda: flow(flow(state(), t), s).pos, q + (t + s) * (Mi @ p))
    chk("h2_flow-inverse", lambda: flow(flow(state(), t), -t).pos, q)
    chk("h2-conserved-along-h2_flow", lambda: system.h2(flow(state(), t)), 0.5 * p @ Mi @ p)
    sq = np.eye(N) if isinstance(system.metric, M.IdentityMatrix) else system.metric.sqrt @ np.eye(N)
    chk("metric-sqrt-times-transpose-is-the-metric", lambda: sq @ sq.T, Mm)
    r = Rng(z)
    if con:
        chk("dh2_flow_dmom-position-block", lambda: system.dh2_flow_dmom(state(), t)[0] @ X, t * (Mi @ X))
        chk("dh2_flow_dmom-momentum-block", lambda: system.dh2_flow_dmom(state(), t)[1] @ X, X)
        G = J @ Mi @ J.T
        P = np.eye(N) - J.T @ np.linalg.inv(G) @ J @ Mi

        def proj(x):
            return system.project_onto_cotangent_space(x.copy(), state())
        chk("projection-formula", lambda: proj(v), P @ v)
        chk("projection-annihilates-J-Minv", lambda: J @ Mi @ proj(v), np.zeros(K))
        chk("projection-idempotent", lambda: proj(proj(v)), P @ v)
        chk("projection-moves-along-range-of-J-transpose", lambda: proj(v), P @ v)
        chk("gram-is-J-Minv-J-transpose", lambda: system.gram(state()).array, G)
        chk("inv_gram-is-its-inverse", lambda: G @ (system.inv_gram(state()) @ np.eye(K)), np.eye(K))
        chk("sample_momentum-is-projected-sqrt-times-draw", lambda: system.sample_momentum(state(), r), P @ sq @ z)
        chk("sampled-momentum-in-cotangent-space", lambda: J @ Mi @ system.sample_momentum(state(), r), np.zeros(K))
    else:
        chk("sample_momentum-is-sqrt-times-standard-normal-draw", lambda: system.sample_momentum(state(), r), sq @ z)
    if not (r.calls and all(cl == (N,) for cl in r.calls)):
        bad["sample_momentum-draws-a-vector-of-the-position-shape"] = f"draw sizes {r.calls}"
    return bad


def main():
    w = json.loads(sys.argv[1]) if len(sys.argv) > 1 else {}
    if "metric" not in w:
        print("no witness")
        return 0
    target = w.get("obligation", "")
    for seed in (3, 11):
        try:
            bad = evaluate(w, seed)
        except Exception:  # noqa: BLE001
            import traceback
            bad = {"constructs": traceback.format_exc()[-600:]}
        hits = {k: v for k, v in bad.items() if k == target or (target == "constructs")}
        if hits:
            print("REPRODUCED", w["metric"], "constrained" if w.get("constrained") else "euclidean", "reassigned" if w.get("reassigned") else "", target)
            for k, v in list(hits.items())[:4]:
                print("  ", k, ":", v[:400])
            return 1
    print("not reproduced natively:", target, f"({len(bad)} other mismatches: {list(bad)[:5]})")
    return 0


if __name__ == "__main__":
    sys.exit(main())
