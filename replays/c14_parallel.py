"""Native replay for C14: the same seeded multi-stage run with n_process = 1 and n_process = 2 must give identical traces;
a chain's trace must not depend on how many other chains run (no cross-chain adapters).  Exit 1 + REPRODUCED otherwise."""
import sys

import numpy as np

import mici


def nld(q):
    return 0.5 * q @ q + 0.25 * np.sum(q**4)


def grad(q):
    return q + q**3


def trace(state):
    return {"pos": state.pos}


def run(n_process, n_chain, n_warm, n_main, adapters, seed=7):
    sysm = mici.systems.EuclideanMetricSystem(nld, grad_neg_log_dens=grad)
    integ = mici.integrators.LeapfrogIntegrator(sysm, step_size=0.25)
    s = mici.samplers.StaticMetropolisHMC(sysm, integ, np.random.default_rng(seed), n_step=2)
    inits = [np.array([0.3, -0.2]) + 0.1 * c for c in range(n_chain)]
    o = s.sample_chains(n_warm_up_iter=n_warm, n_main_iter=n_main, init_states=inits, adapters=adapters, trace_funcs=[trace], n_process=n_process,
                        display_progress=False, trace_warm_up=True)
    return [np.array(a) for a in o.traces["pos"]]


def main():
    fails = []
    for n_warm, adapters, label in ((0, None, "single stage, no adapters"), (4, [mici.adapters.DualAveragingStepSizeAdapter()], "warm-up + main stage, step size adapter"),
                                    (4, None, "two stages without adapters")):
        kw = dict(n_chain=2, n_warm=n_warm, n_main=5, adapters=adapters)
        if adapters is None and n_warm:
            # two recorded stages without adaptation: use an explicit stager through the default (WarmUpStager)
            pass
        seq = run(1, **kw)
        par = run(2, **kw)
        for c in range(2):
            if not np.array_equal(seq[c], par[c]):
                k = int(np.argmax(np.any(seq[c] != par[c], axis=1)))
                fails.append(f"{label}: chain {c} differs between n_process=1 and n_process=2 from recorded iteration {k} on "
                             f"(sequential {seq[c][k]}, parallel {par[c][k]})")
    a = run(1, n_chain=1, n_warm=0, n_main=6, adapters=None)
    b = run(1, n_chain=3, n_warm=0, n_main=6, adapters=None)
    if not np.array_equal(a[0], b[0]):
        fails.append("chain 0 depends on the number of chains run")
    if fails:
        print("REPRODUCED:", fails[0])
        for f in fails[1:4]:
            print("  also:", f)
        sys.exit(1)
    print("not reproduced")


if __name__ == "__main__":
    main()
