"""Native replay for C13/C15/C16 sampler-level obligations.  Modes:
  records   : trace/statistics rows equal an independent re-run of the same transitions; lengths; no fill value; memmap == memory; n_process=None
  interrupt : KeyboardInterrupt raised at the k-th call of the trace function / density: returns normally, prefix identical, later rows fill
  zero_stage: warm-up counts below the window sizes: main-stage step size must be the adapted one, never the initial default exp(0)=1
Exit 1 + REPRODUCED on a violation."""
import sys
import tempfile

import numpy as np

import mici
from mici import adapters as A, stagers


def nld(q):
    return 0.5 * q @ q


def grad(q):
    return q


def make(seed=3):
    sysm = mici.systems.EuclideanMetricSystem(nld, grad_neg_log_dens=grad)
    integ = mici.integrators.LeapfrogIntegrator(sysm, step_size=0.3)
    return sysm, integ, mici.samplers.StaticMetropolisHMC(sysm, integ, np.random.default_rng(seed), n_step=3)


def records(fails):
    for kw in (dict(n_warm_up_iter=0, n_main_iter=6), dict(n_warm_up_iter=4, n_main_iter=5, trace_warm_up=True), dict(n_warm_up_iter=3, n_main_iter=0, trace_warm_up=True)):
        outs = []
        for mm in (False, True):
            sysm, integ, s = make()
            with tempfile.TemporaryDirectory() as d:
                o = s.sample_chains(init_states=[np.array([0.5, -0.2]), np.array([1.0, 1.0])], adapters=None, force_memmap=mm, memmap_path=d if mm else None,
                                    display_progress=False, **kw)
                outs.append(({k: [np.array(a) for a in v] for k, v in o.traces.items()}, {k: [np.array(a) for a in v] for k, v in o.statistics.items()}, o.final_states))
        n_rec = kw["n_main_iter"] + (kw["n_warm_up_iter"] if kw.get("trace_warm_up") else 0)
        tr, st, fs = outs[0]
        for k, v in tr.items():
            for c, a in enumerate(v):
                if len(a) != n_rec:
                    fails.append(f"{kw}: trace {k} chain {c} has {len(a)} rows, expected {n_rec}")
                if np.any(np.isnan(a)):
                    fails.append(f"{kw}: trace {k} chain {c} still holds fill values")
        for k, v in st.items():
            for c, a in enumerate(v):
                if len(a) != n_rec or (a.dtype.kind == "f" and np.any(np.isnan(a))) or (k == "n_step" and np.any(a < 0)):
                    fails.append(f"{kw}: statistic {k} chain {c}: wrong length or surviving fill value")
        for k in tr:
            for c in range(2):
                if not np.array_equal(outs[0][0][k][c], outs[1][0][k][c], equal_nan=True):
                    fails.append(f"{kw}: memmap and in-memory traces differ for {k} chain {c}")
        if n_rec and not np.allclose(tr["pos"][0][-1], fs[0].pos):
            fails.append(f"{kw}: last trace row is not the returned final state")
    # overlapping trace keys: documented rule -- the last trace function returning a key is the one recorded
    sysm, integ, s = make()
    o = s.sample_chains(n_warm_up_iter=0, n_main_iter=5, init_states=[np.array([0.5, -0.2])], adapters=None, display_progress=False,
                        trace_funcs=[lambda st: {"pos": st.pos, "a": st.pos[0]}, lambda st: {"pos": np.exp(st.pos)}])
    if not np.allclose(np.array(o.traces["pos"][0])[-1], np.exp(o.final_states[0].pos)) or not np.allclose(np.array(o.traces["a"][0])[-1], o.final_states[0].pos[0]):
        fails.append("two trace functions return the key 'pos': the recorded rows are not the last trace function's values (documented precedence)")
    try:
        sysm, integ, s = make()
        s.sample_chains(n_warm_up_iter=0, n_main_iter=2, init_states=[np.array([0.5, -0.2])], adapters=None, n_process=None, display_progress=False)
    except TypeError as e:
        fails.append(f"sample_chains(n_process=None) [documented: use os.cpu_count()] raised TypeError: {e}")
    except Exception as e:  # noqa: BLE001  (pickling limits of the sandbox are not the property)
        print("note: n_process=None run ended with", type(e).__name__, str(e)[:80])


def zero_stage(fails):
    for n_warm in (1, 5, 9, 12, 30):
        for stager in (None, stagers.WindowedWarmUpStager()):
            sysm, integ, s = make()
            ads = [A.DualAveragingStepSizeAdapter()] + ([A.OnlineVarianceMetricAdapter()] if stager is None else [])
            try:
                o = s.sample_chains(n_warm_up_iter=n_warm, n_main_iter=4, init_states=[np.array([0.5, -0.2])], adapters=ads, stager=stager, display_progress=False)
            except mici.errors.AdaptationError:
                continue  # e.g. fewer than two samples for a variance estimate: a legitimate refusal
            except Exception as e:  # noqa: BLE001
                fails.append(f"n_warm_up_iter={n_warm}: {type(e).__name__}: {e}")
                continue
            ss = o.statistics["step_size"][0]
            if np.all(ss == 1.0):
                fails.append(f"n_warm_up_iter={n_warm} stager={'default' if stager is None else 'Windowed'}: main stage ran with step_size == 1.0 = exp(0): "
                             "a zero-iteration adaptive stage was initialised and finalized, overwriting the adapted value")


class Interrupter:
    def __init__(self, at):
        self.n, self.at = 0, at

    def __call__(self, state):
        self.n += 1
        if self.n == self.at:
            raise KeyboardInterrupt
        return {"pos": state.pos}


def interrupt(fails):
    for n_chain, ads in ((1, None), (3, [A.DualAveragingStepSizeAdapter(), A.OnlineVarianceMetricAdapter()]), (2, [A.DualAveragingStepSizeAdapter()])):
        for at in (1, 3, 7, 12, 16):
            for mm in (False, True):
                inits = [np.array([0.5, -0.2]) + c for c in range(n_chain)]
                sysm, integ, s = make()
                ref = s.sample_chains(n_warm_up_iter=4, n_main_iter=5, init_states=[i.copy() for i in inits], adapters=ads, trace_warm_up=True,
                                      trace_funcs=[lambda st: {"pos": st.pos}], display_progress=False)
                sysm, integ, s = make()
                tf = Interrupter(at + n_chain)  # +n_chain: the trace function is also called once per array at allocation time
                with tempfile.TemporaryDirectory() as d:
                    try:
                        o = s.sample_chains(n_warm_up_iter=4, n_main_iter=5, init_states=[i.copy() for i in inits], adapters=ads, trace_warm_up=True,
                                            trace_funcs=[tf], display_progress=False, force_memmap=mm, memmap_path=d if mm else None)
                    except BaseException as e:  # noqa: BLE001
                        fails.append(f"{n_chain} chain(s), adapters={'yes' if ads else 'no'}, interrupt at trace call {at}: sample_chains raised {type(e).__name__}: {e}")
                        continue
                    got = [np.array(a) for a in o.traces["pos"]]
                for c in range(n_chain):
                    a, r = got[c], np.array(ref.traces["pos"][c])
                    written = ~np.isnan(a[:, 0])
                    k = int(written.sum())
                    if not np.all(written[:k]):
                        fails.append(f"interrupt at {at}: written rows of chain {c} are not a prefix")
                    elif not np.allclose(a[:k], r[:k]):
                        fails.append(f"interrupt at {at}: recorded prefix of chain {c} differs from the uninterrupted run")


def rows_vs_states(fails):
    """EVERY trace / statistics row against the state the chain was in after that iteration, with transitions that may return the SAME state object
    updated in place (momentum refreshes do; a rejected Metropolis proposal returns its argument): a recording transition wrapped around the real
    ones logs the post-iteration (pos, mom, hamiltonian) independently of the trace functions."""
    for seed in (3, 7):
        for step in (0.3, 1.7):  # 1.7: many rejections
            sysm = mici.systems.EuclideanMetricSystem(lambda q: 0.5 * q @ q + 0.25 * np.sum(q**4), grad_neg_log_dens=lambda q: q + q**3)
            integ = mici.integrators.LeapfrogIntegrator(sysm, step_size=step)
            s = mici.samplers.StaticMetropolisHMC(sysm, integ, np.random.default_rng(seed), n_step=2)
            log = []
            real = s.transitions["integration_transition"]

            class Rec:
                state_variables = real.state_variables
                statistic_types = real.statistic_types

                def sample(self, state, rng):
                    out, stats = real.sample(state, rng)
                    log.append((np.array(out.pos, copy=True), np.array(out.mom, copy=True), float(sysm.h(out)), out is state))
                    return out, stats
            s.transitions["integration_transition"] = Rec()
            n = 25
            o = s.sample_chains(n_warm_up_iter=0, n_main_iter=n, init_states=[np.array([0.5, -0.2])], adapters=None, display_progress=False,
                                trace_funcs=[lambda st: {"pos": st.pos, "mom": st.mom, "hamiltonian": sysm.h(st)}])
            same = sum(1 for e in log if e[3])
            for i in range(n):
                for key, j in (("pos", 0), ("mom", 1), ("hamiltonian", 2)):
                    if not np.allclose(np.array(o.traces[key][0])[i], log[i][j], rtol=1e-12, atol=1e-12):
                        fails.append(f"seed {seed} step {step}: trace '{key}' row {i} is {np.array(o.traces[key][0])[i]} but the chain state after iteration {i} has {log[i][j]} "
                                     f"({same} of {n} iterations returned the same state object updated in place)")
                        break
                else:
                    continue
                break


def main():
    mode = sys.argv[1] if len(sys.argv) > 1 else "all"
    fails = []
    if mode in ("rows", "all"):
        rows_vs_states(fails)
    if mode in ("records", "all"):
        records(fails)
    if mode in ("zero_stage", "all"):
        zero_stage(fails)
    if mode in ("interrupt", "all"):
        interrupt(fails)
    if fails:
        print("REPRODUCED:", fails[0])
        for f in fails[1:6]:
            print("  also:", f)
        sys.exit(1)
    print("not reproduced")


main()
