"""Native replay: log_abs_det of large well-conditioned matrices whose determinant leaves the double range but whose
log-determinant is an ordinary number, against numpy.linalg.slogdet.  Exit 1 + REPRODUCED on a non-finite or wrong value."""
import sys

import numpy as np

from mici import matrices as M

bad = []
for n, scale in ((400, 0.05), (400, 20.0), (900, 0.3)):
    rng = np.random.default_rng(n)
    L = np.tril(rng.standard_normal((n, n)) * 0.01) + np.diag(rng.uniform(0.8, 1.2, n) * scale)
    want = np.log(np.abs(np.diag(L))).sum()
    cases = [("TriangularMatrix", M.TriangularMatrix(L), want), ("InverseTriangularMatrix", M.InverseTriangularMatrix(L), -want),
             ("TriangularFactoredPositiveDefiniteMatrix", M.TriangularFactoredPositiveDefiniteMatrix(L), 2 * want),
             ("DensePositiveDefiniteMatrix", M.DensePositiveDefiniteMatrix(L @ L.T), 2 * want), ("DenseSquareMatrix", M.DenseSquareMatrix(L), want),
             ("DiagonalMatrix", M.DiagonalMatrix(np.diag(L).copy()), want), ("ScaledIdentityMatrix", M.ScaledIdentityMatrix(scale, n), n * np.log(scale))]
    for name, X, w in cases:
        try:
            got = float(X.log_abs_det)
        except Exception as e:  # noqa: BLE001
            bad.append(f"{name} n={n} scale={scale}: {type(e).__name__}: {e}")
            continue
        if not np.isfinite(got) or abs(got - w) > 1e-8 * (1 + abs(w)):
            bad.append(f"{name} n={n} diagonal scale {scale}: log_abs_det = {got}, log|det| = {w}")
if bad:
    print("REPRODUCED:", bad[0])
    for b in bad[1:4]:
        print("  also:", b)
    sys.exit(1)
print("not reproduced")
