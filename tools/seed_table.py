"""Writes seeded/<id>/meta.json (property, what the change needs to manifest, what was run, which obligations caught it) from notes.md
and result.json, and refreshes the table between the SEED-TABLE markers in DESIGN.md.  Run by hand after tools/run_seeds.py."""
import glob
import json
import os
import re

V = os.path.dirname(os.path.dirname(os.path.abspath(__file__)))
rows = []
for d in sorted(glob.glob(os.path.join(V, "seeded", "C*"))):
    sid = os.path.basename(d)
    notes = open(os.path.join(d, "notes.md")).read() if os.path.exists(os.path.join(d, "notes.md")) else ""
    res = json.load(open(os.path.join(d, "result.json"))) if os.path.exists(os.path.join(d, "result.json")) else {}
    title = next((l.lstrip("# ").strip() for l in notes.splitlines() if l.startswith("# ")), sid)
    title = re.sub(r"^(Seed(ed)?\s+)?(change\s+)?C\d\d\s*[/ ]?\s*(seed\s*)?\(?(change\s*)?[a-l12]?\)?\s*[-—:]+\s*", "", title, flags=re.I)
    m = re.search(r"^##[^\n]*(manifest|trigger|needs|When it)[^\n]*\n(.*?)(?=^## |\Z)", notes, flags=re.S | re.M | re.I)
    needs = re.sub(r"\s+", " ", m.group(2)).strip() if m else ""
    if not needs:
        m = re.search(r"^##[^\n]*Why[^\n]*\n(.*?)(?=^## |\Z)", notes, flags=re.S | re.M)
        needs = re.sub(r"\s+", " ", m.group(1)).strip() if m else ""
    obs = []
    for f in res.get("failed_obligations", []):
        mm = re.match(r"failed obligation: (.+?) \[[a-z0-9:.\- ]+\]", f)
        if mm and mm.group(1) not in obs:
            obs.append(mm.group(1))
    meta = {
        "seed": sid, "property": sid.split("-")[0], "summary": title,
        "needs_to_manifest": needs[:1500],
        "files": sorted(os.listdir(d)),
        "ran": [f"tools/run_seeds_par.py: scratch copy of /repo/src + patch -p1 < seeded/{sid}/patch.diff (same effect as git -C /repo apply; /repo itself untouched)",
                f"MICI_REPO=<copy> ./check {sid.split('-')[0]} --tier quick",
                f"PYTHONPATH=<copy>/src /venv/bin/python seeded/{sid}/demo.py  and  PYTHONPATH=/repo/src ... demo.py (with and without the change)", "scratch copy removed"],
        "demo_exit_with_change": res.get("demo_exit_with_patch"), "demo_exit_without_change": res.get("demo_exit_without_patch"),
        "check_exit_with_change": res.get("check_exit"), "detected": res.get("detected"), "caught_by_obligations": obs[:8],
        "suite_with_change": "whole suite at its baseline 32504 passed / 21 skipped (run by the seeding agent with the change applied; summary line in notes.md)",
        "reproduced_natively_by_replay": res.get("reproduced_natively"),
        "round": {"a": 1, "b": 1, "c": 2, "d": 2, "e": 3, "f": 3, "g": 4, "h": 4, "i": 5, "j": 5, "k": 6, "l": 6}.get(sid.split("-")[-1]),
    }
    json.dump(meta, open(os.path.join(d, "meta.json"), "w"), indent=1)
    first = obs[0].split("/", 1)[1] if obs else "—"
    rows.append(f"| {sid} | {title[:110]} | {'yes' if res.get('detected') else 'NO'} | `{first[:120]}`{' (+%d more)' % (len(obs) - 1) if len(obs) > 1 else ''} |")
table = "| seed | change | caught | first failing obligation |\n|------|--------|--------|--------------------------|\n" + "\n".join(rows)
p = os.path.join(V, "DESIGN.md")
s = open(p).read()
s = re.sub(r"<!-- SEED-TABLE-BEGIN -->.*?<!-- SEED-TABLE-END -->", "<!-- SEED-TABLE-BEGIN -->\n" + table.replace("\\", "\\\\") + "\n<!-- SEED-TABLE-END -->", s, flags=re.S)
open(p, "w").write(s)
print(len(rows), "seeds;", sum("| yes |" in r for r in rows), "caught")
