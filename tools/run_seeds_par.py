"""Parallel variant of run_seeds.py that never touches /repo: for every /verif/seeded/<id>/patch.diff it makes a scratch copy of
/repo's *working tree* sources (src/ only, under a fresh temporary directory that is removed afterwards), applies the patch
there, runs the property's quick check with MICI_REPO pointing at the copy (evidence / generated replays go to the scratch
directory, not to /verif) and the demonstration with and without the change, and writes seeded/<id>/result.json.

Usage: run_seeds_par.py [regex-on-seed-id] [-j N] [--props C01,C02]   (default: all seeds, 5 at a time)
"""
import argparse
import concurrent.futures as cf
import glob
import json
import os
import re
import shutil
import subprocess
import tempfile

V = os.path.dirname(os.path.dirname(os.path.abspath(__file__)))


def one(d):
    sid = os.path.basename(d)
    prop = sid.split("-")[0]
    patch = os.path.join(d, "patch.diff")
    tmp = tempfile.mkdtemp(prefix=f"seed_{sid}_", dir="/tmp")
    try:
        shutil.copytree("/repo/src", os.path.join(tmp, "src"))
        r = subprocess.run(["git", "apply", "--unsafe-paths", f"--directory={tmp}", patch], capture_output=True, text=True, cwd=tmp)
        if r.returncode != 0:
            r = subprocess.run(["patch", "-p1", "-s", "-i", patch], capture_output=True, text=True, cwd=tmp)
            if r.returncode != 0:
                return sid, None, "PATCH DOES NOT APPLY " + (r.stdout + r.stderr).strip()[:200]
        env = dict(os.environ, MICI_REPO=tmp, MICI_VERIF_OUT=os.path.join(tmp, "out"))
        c = subprocess.run([os.path.join(V, "check"), prop, "--tier", "quick"], capture_output=True, text=True, cwd=V, env=env)
        vio = [l for l in c.stdout.splitlines() if l.startswith("VIOLATION")]
        failed = [l.strip() for l in c.stdout.splitlines() if l.strip().startswith("failed obligation")]
        other = [l.strip()[:300] for l in c.stdout.splitlines() if l.startswith(("UNDECIDED", "CHECKER", "MISSING"))]
        demo = os.path.join(d, "demo.py")
        dm = dm0 = None
        if os.path.exists(demo):
            dm = subprocess.run(["/venv/bin/python", demo], capture_output=True, text=True, env=dict(os.environ, PYTHONPATH=os.path.join(tmp, "src")), cwd=d, timeout=1800)
            dm0 = subprocess.run(["/venv/bin/python", demo], capture_output=True, text=True, env=dict(os.environ, PYTHONPATH="/repo/src"), cwd=d, timeout=1800)
        res = {"seed": sid, "property": prop, "check_exit": c.returncode,
               "violation_lines": [v.replace(os.path.join(tmp, "out"), "/verif") for v in vio],
               "failed_obligations": [f[:300] for f in failed][:8], "other_lines": other[:8],
               "demo_exit_with_patch": dm.returncode if dm else None, "demo_exit_without_patch": dm0.returncode if dm0 else None,
               "detected": c.returncode == 1 and bool(vio),
               "reproduced_natively": sum(1 for v in vio if "no-failing-input-found" not in v)}
        json.dump(res, open(os.path.join(d, "result.json"), "w"), indent=1)
        return sid, res, (failed[0][:150] if failed else (other[0][:150] if other else ""))
    finally:
        shutil.rmtree(tmp, ignore_errors=True)


if __name__ == "__main__":
    ap = argparse.ArgumentParser()
    ap.add_argument("regex", nargs="?", default="")
    ap.add_argument("-j", type=int, default=5)
    a = ap.parse_args()
    rx = re.compile(a.regex)
    ds = [d for d in sorted(glob.glob(os.path.join(V, "seeded", "C*"))) if rx.search(os.path.basename(d)) and os.path.exists(os.path.join(d, "patch.diff"))]
    missed = 0
    with cf.ThreadPoolExecutor(a.j) as ex:
        for sid, res, first in ex.map(one, ds):
            if res is None:
                print(sid, first)
                missed += 1
                continue
            if not res["detected"]:
                missed += 1
            print(sid, "detected" if res["detected"] else f"MISSED (exit {res['check_exit']})", "| demo with/without:",
                  res["demo_exit_with_patch"], res["demo_exit_without_patch"], "| native:", res["reproduced_natively"], "|", first, flush=True)
    print(f"{len(ds)} seeds, {missed} not detected")
