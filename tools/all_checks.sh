#!/bin/sh
# runs every check registered in MANIFEST.json (quick tier) and prints one line each
cd /verif
for p in $(python3 -c "import json;print(' '.join(c['property_id'] for c in json.load(open('MANIFEST.json'))['checks']))"); do
  ./check $p --tier ${1:-quick} 2>&1 | grep -v WARNING | grep -E "^\[|VIOLATION|UNDECIDED|CRASH|MISSING|KNOWN" | cut -c1-220
done
