"""Regenerates MANIFEST.json from the table below (run by hand; keeps the file schema-valid)."""
import json, os
HERE = os.path.dirname(os.path.dirname(os.path.abspath(__file__)))
props = [json.loads(l) for l in open(os.path.join(HERE, "properties.jsonl"))]
from manifest_table import CHECKS, NOT_APPLICABLE  # noqa: E402
checks = []
for pid, c in CHECKS.items():
    checks.append({
        "property_id": pid,
        "quick_cmd": f"./check {pid} --tier quick",
        "thorough_cmd": f"./check {pid} --tier thorough",
        "evidence_file": f"/verif/evidence/{pid}.json",
        "replay_cmd_template": "cat {path}",
        "engine": c["engine"],
        "level_claimed": {"category": "proof", "text": c["text"], "design_ref": c["design_ref"]},
        "level_note": c["note"],
        "technique": c["technique"],
    })
claimed = set(CHECKS)
na = [{"property_id": p["id"], "reason": NOT_APPLICABLE.get(p["id"], "check not built yet in this round (see DESIGN.md section 7); nothing is claimed")}
      for p in props if p["id"] not in claimed]
m = {
    "version": 1,
    "setup_cmd": "python3-vt -m compileall -q vf >/dev/null 2>&1; true",
    "hooks": {"guard": "MICI_VERIF", "enable": "no hooks: all contracts are sidecar files under /verif; engines read /repo/src at run time",
              "baseline_off_cmd": "cd /repo && /venv/bin/python -m pytest -ra -q -p no:cacheprovider --timeout=900 --continue-on-collection-errors",
              "source_commits": [], "add_only": True},
    "engines": [
        {"name": "pyvc", "path": "vf/pyvc.py", "serves_properties": sorted(p for p, c in CHECKS.items() if "pyvc" in c["engine"]),
         "kind_free_text": "symbolic execution of the real function ASTs of /repo/src/mici with sidecar contracts (pre/post, loop invariants, callee contracts); obligations discharged by z3"},
        {"name": "symla", "path": "vf/symla.py", "serves_properties": sorted(p for p, c in CHECKS.items() if "symla" in c["engine"]),
         "kind_free_text": "the real numeric classes executed on exact symbolic (rational-function) arrays with contract shims for LAPACK primitives"},
        {"name": "ncalg", "path": "vf/ncalg.py", "serves_properties": sorted(p for p, c in CHECKS.items() if "ncalg" in c["engine"]),
         "kind_free_text": "the real matrix classes executed on typed non-commutative polynomials over matrix atoms of symbolic dimension (contract stubs for operands and LAPACK "
                           "primitives, defining relations as rewrite rules, log-determinants in a linear layer with explicitly instantiated lemmas); rule table re-proved in lean/MatrixLemmas.lean"},
        {"name": "lean", "path": "lean/MatrixLemmas.lean", "serves_properties": ["C10"],
         "kind_free_text": "Lean 4.33 + Mathlib: the rule table of Engine D for matrices of arbitrary finite dimension over the reals (type-checked in every C10 run)"},
    ],
    "checks": checks,
    "not_applicable": na,
    "notes": "contract-based deductive verification; see DESIGN.md. Exit codes: 0 held, 1 violation, 2 undecided, 3 checker error.",
}
json.dump(m, open(os.path.join(HERE, "MANIFEST.json"), "w"), indent=1)
print("checks:", sorted(claimed), "not_applicable:", len(na))
