"""Applies every /verif/seeded/<id>/patch.diff to /repo in turn, runs the property's quick check and the
demonstration, reverts, and writes seeded/<id>/result.json.  Usage: run_seeds.py [id-prefix]"""
import json, os, subprocess, sys, glob
V = os.path.dirname(os.path.dirname(os.path.abspath(__file__)))
pref = sys.argv[1] if len(sys.argv) > 1 else ""
import re
only = re.compile(sys.argv[2]) if len(sys.argv) > 2 else None  # optional regex on the seed id, e.g. '-[cd]$'
assert subprocess.run(["git", "-C", "/repo", "status", "--porcelain", "--untracked-files=no"], capture_output=True, text=True).stdout.strip() == "", "/repo dirty"
for d in sorted(glob.glob(os.path.join(V, "seeded", pref + "*"))):
    sid = os.path.basename(d)
    if only is not None and not only.search(sid):
        continue
    prop = sid.split("-")[0]
    patch = os.path.join(d, "patch.diff")
    if not os.path.exists(patch):
        continue
    r = subprocess.run(["git", "-C", "/repo", "apply", patch], capture_output=True, text=True)
    if r.returncode != 0:
        print(sid, "PATCH DOES NOT APPLY", r.stderr.strip()[:200]); continue
    try:
        c = subprocess.run([os.path.join(V, "check"), prop, "--tier", "quick"], capture_output=True, text=True, cwd=V)
        vio = [l for l in c.stdout.splitlines() if l.startswith("VIOLATION")]
        failed = [l.strip() for l in c.stdout.splitlines() if l.strip().startswith("failed obligation")]
        demo = os.path.join(d, "demo.py")
        dm = subprocess.run(["/venv/bin/python", demo], capture_output=True, text=True, env=dict(os.environ, PYTHONPATH="/repo/src"), cwd=d, timeout=1800) if os.path.exists(demo) else None
    finally:
        subprocess.run(["git", "-C", "/repo", "checkout", "--", "."])
    dm0 = subprocess.run(["/venv/bin/python", demo], capture_output=True, text=True, env=dict(os.environ, PYTHONPATH="/repo/src"), cwd=d, timeout=1800) if os.path.exists(demo) else None
    res = {"seed": sid, "property": prop, "check_exit": c.returncode, "violation_lines": vio, "failed_obligations": [f[:300] for f in failed][:8],
           "demo_exit_with_patch": dm.returncode if dm else None, "demo_exit_without_patch": dm0.returncode if dm0 else None,
           "detected": c.returncode == 1 and bool(vio)}
    json.dump(res, open(os.path.join(d, "result.json"), "w"), indent=1)
    print(sid, "detected" if res["detected"] else f"MISSED (exit {c.returncode})", "| demo with/without:", res["demo_exit_with_patch"], res["demo_exit_without_patch"], "|", (failed[0][:150] if failed else ""))
