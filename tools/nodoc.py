import ast,sys
src=open(sys.argv[1]).read()
tree=ast.parse(src)
for node in ast.walk(tree):
    if isinstance(node,(ast.FunctionDef,ast.ClassDef,ast.Module)):
        if node.body and isinstance(node.body[0],ast.Expr) and isinstance(getattr(node.body[0],'value',None),ast.Constant) and isinstance(node.body[0].value.value,str):
            node.body[0].value.value="doc"
print(ast.unparse(tree))
