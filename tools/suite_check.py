"""Runs /repo's test-suite (xdist) and compares the set of passing tests with BASELINE.json stable_pass."""
import json, subprocess, sys, tempfile, os, xml.etree.ElementTree as ET
repo = sys.argv[1] if len(sys.argv) > 1 else "/repo"
out = tempfile.mktemp(suffix=".xml", dir="/tmp")
env = dict(os.environ, PYTHONPATH=os.path.join(repo, "src"))
p = subprocess.run(["/venv/bin/python", "-m", "pytest", "-q", "-p", "no:cacheprovider", "-n", sys.argv[2] if len(sys.argv) > 2 else "14",
                    "--timeout=900", "--continue-on-collection-errors", f"--junitxml={out}"], cwd=repo, env=env, capture_output=True, text=True)
print(p.stdout.strip().splitlines()[-1])
base = set(json.load(open("/root/.vp/BASELINE.json"))["stable_pass"])
passed = set()
for tc in ET.parse(out).getroot().iter("testcase"):
    if not any(c.tag in ("failure", "error", "skipped") for c in tc):
        passed.add(f"{tc.get('classname')}::{tc.get('name')}")
os.remove(out)
lost = sorted(base - passed)
print(f"baseline stable_pass={len(base)} now passing={len(passed)} lost={len(lost)} newly-passing={len(passed - base)}")
for t in lost[:20]:
    print("  LOST", t)
sys.exit(1 if lost else 0)
