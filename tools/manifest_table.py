CHECKS = {
    "C16": {
        "engine": "pyvc",
        "technique": "contract-based deductive verification: loop invariants + postconditions on the real stager/sampler source, VCs discharged by z3",
        "design_ref": "DESIGN.md section 7 C16",
        "text": "Both stagers' stages() are symbolically executed from /repo source for all iteration counts and window settings; "
                "the while-loop is cut by an inductive invariant (with a progress/termination obligation), the stage-construction loop by a "
                "family contract; postconditions state exact partition, order, adapter placement and the non-adaptive main stage.",
        "note": "floats in int(c*n) follow a monotone relative-error rounding model (not bit-exact); stager precondition "
                "n_init_slow_window_iter>=1, multiplier>=1; string keys not modelled; z3 trusted.",
    },
}
NOT_APPLICABLE = {}
