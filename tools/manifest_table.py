CHECKS = {
    "C16": {
        "engine": "pyvc",
        "technique": "contract-based deductive verification: loop invariants + postconditions on the real stager/sampler source, VCs discharged by z3",
        "design_ref": "DESIGN.md section 7 C16",
        "text": "Both stagers' stages() are symbolically executed from /repo source for all iteration counts and window settings; "
                "the while-loop is cut by an inductive invariant (with a progress/termination obligation), the stage-construction loop by a "
                "family contract; postconditions state exact partition, order, adapter placement and the non-adaptive main stage.",
        "note": "floats in int(c*n) follow a monotone relative-error rounding model (not bit-exact); stager precondition "
                "n_init_slow_window_iter>=1, multiplier>=1; stage labels are modelled through the symbolic fields of their f-strings (pairwise distinct per window); z3 trusted."
                " Added in round 5: integrality of the running window size / counter is part of the while-loop invariant (non-integer slow_window_multiplier)."
                " Added in round 6: loop contracts are anchored to the kind of loop they describe and follow it when ordinals shift; an AdaptationError of any adapter's finalize stops the run.",
    },
}
CHECKS["C20"] = {
    "engine": "pyvc",
    "technique": "contract-based deductive verification: real-arithmetic specifications and IEEE domain/conditioning obligations on the real utils.py source, discharged by z3 with instantiated exp/log axioms",
    "design_ref": "DESIGN.md section 7 C20",
    "text": "Every helper and every LogRepFloat operator in mici/utils.py is symbolically executed from source. Layer 1 proves the result equals the real "
            "specification for all reals (EXP/LOG uninterpreted with axioms); layer 2 proves, under a monotone 1-ulp libm model, that for every finite double no libm "
            "call leaves its domain or overflows, that log/log1p are only evaluated where their condition number is <= 4, that LogRepFloat-LogRepFloat operations stay in "
            "log space, compare like the reals and never skip an accumulation.",
    "note": "libm accuracy/monotonicity model and EXP/LOG axioms are trusted (A3); 'near machine precision' is established as per-branch conditioning, not as a full "
            "forward error bound; mixed operations with plain numbers are specified over reals only (their plain value must be representable)."
            ' Added in round 5: math.isclose modelled over the reals.'
            ' Added in round 6: IEEE model: w += plain zero is the identity on the log value for any magnitude.',
}
CHECKS["C06"] = {
    "engine": "pyvc",
    "technique": "contract-based deductive verification: ghost-trace postconditions (per-component time sums, adjoint-palindromic arrangement) on the real _step/__init__ bodies, z3",
    "design_ref": "DESIGN.md section 7 C06",
    "text": "Each integrator's _step (and SymmetricCompositionIntegrator.__init__ for symbolic real free coefficients, n<=5 quick / 8 thorough) is symbolically executed "
            "against a contract stub of the system; postconditions: every Hamiltonian component is advanced by exactly time_step, the sub-step sequence is symmetric with "
            "equal adjoint times, coefficients are palindromic and sum to one, step() passes dir*step_size; the constrained inner loop is cut by an invariant for every n_inner_step.",
    "note": "for the explicit splitting integrators the second-order conditions (sum over ordered sub-step pairs of tau_i tau_j == t^2/2) are discharged from the traced times; for the implicit and constrained "
            "schemes 'first-order map composed with its adjoint => order 2' remains a cited theorem (A9); energy error O(eps^2) follows from order 2 by the standard argument (cited); in the trace obligations flows are contract stubs, their exactness and the "
            "gradient consistency of the system's own Hamiltonian are imported from the C07 / C05 obligation sets (run as part of this check); "
            "number of free coefficients bounded (values unbounded); reals for floats."
            ' Added in rounds 3-4: the implicit sub-step contracts of C02 are imported and the stub system forks on isinstance tests (a fast path keyed on the system class is explored).'
            ' Added in round 5: dh_dpos / dh_dmom gradient obligations and repeated-evaluation / cached-gradient obligations of C05 imported.',
}
CHECKS["C02"] = {
    "engine": "pyvc+ncalg",
    "technique": "contract-based deductive verification: frame/postconditions and exceptional postconditions on the real integrator sub-steps (abstract vector algebra + z3), callee contracts for solvers and flows",
    "design_ref": "DESIGN.md section 7 C02",
    "text": "step() of every integrator class is proved to leave its input state untouched and to let only IntegratorErrors escape; explicit schemes have palindromic traces of "
            "group-action flows (with the z3-checked telescoping lemma); for every implicit sub-step the fixed-point map handed to the solver is proved to be the documented one, and for "
            "every adjoint sub-step the explicit update is proved to be its algebraic adjoint and every normal return is proved to have passed the reversibility check (on a copy, with "
            "negated time, against the initial value); the constrained inner loop is cut by an invariant for any n_inner_step.",
    "note": "component flows are contract stubs assumed to be group actions (C07); uniqueness of implicit solutions (A8); 'up to solver tolerance' not quantified; vectors are abstract "
            "linear combinations (equalities proved coefficient-wise)."
            ' Added in rounds 3-4 (obligations, not assumptions): group laws of the real component flows (C07, Engine B + D), the cache protocol of states.py incl. key injectivity (C09), sub-step errors propagate unchanged (no silent fallback).'
            ' Added in round 5: np.any / np.all of an abstract derivative vector fork both ways independently per call (a sub-step skipped when dh2_dpos happens to vanish at the start of the step).',
}
CHECKS["C17"] = {
    "engine": "pyvc",
    "technique": "contract-based deductive verification: postconditions and loop invariants (ghost sufficient statistics) on the real adapters.py source; z3 with sympy polynomial-identity and exact-evaluation fallbacks",
    "design_ref": "DESIGN.md section 7 C17",
    "text": "Dual averaging update/finalize/initialize are proved equal to the documented recursion for all settings and histories (one-step contract, induction over the history); the initial "
            "step-size search loop is cut by an invariant proving that it returns only at a log-2 crossing and raises only AdaptationError; Welford updates and the Chan merge are proved to "
            "maintain ghost batch sums (variance and covariance adapter: loop invariants over ANY number of chains, so the result is independent of split and order; the covariance merge additionally for 1-3 explicit chains), "
            "followed by exact regularisation, inverse metric and momentum refresh under the new metric.",
    "note": "real arithmetic in the contracts; the large-offset clause is covered by a BOUNDED native check (offset 1e8, 9 partitions x 3 settings) only; arrays lifted component-wise (1 resp. 2 generic components); (1/m)^kappa and sqrt uninterpreted; matrix "
            "constructors and sample_momentum are contract stubs; precondition: every chain contributes >= 1 update."
            ' Added in round 5: finalize with ANY user reducer (uninterpreted) for lists of 1-3 chains; the momentum refresh must go through system.sample_momentum (matrix stub with sqrt / generator stub with standard_normal so that an inline draw is a decided failure).'
            ' Added in round 6: covariance merge for ANY number of chains by a loop invariant over ghost sums (was bounded to 1-3 chains); static frame: no adapter method writes to the shared adapter object.',
}
CHECKS["C04"] = {
    "engine": "pyvc+ncalg",
    "technique": "contract-based deductive verification: loop invariants over abstract operator words (pos == pos0 - Phi_q mu, mu in range(J_prev^T)) on the real projection solvers; ghost-trace postconditions on the constrained integrator; z3",
    "design_ref": "DESIGN.md section 7 C04",
    "text": "The three projection solvers are symbolically executed from source with the system as a contract stub: an inductive invariant proves that position and momentum corrections "
            "share one Lagrange multiplier in range(J_prev^T) for every iteration count (including the exhausted line search), a normal return implies a residual below tolerance evaluated at "
            "the returned position, failures are ConvergenceErrors; the constrained integrator is proved to project after every sub-step for any inner-step count.",
    "note": "convergence (liveness) not claimed; constraint function/Jacobian uninterpreted (A4); dh2_flow_dmom and Gram inverse are contract stubs (C07/C10); the closed-form cotangent "
            "projection identity J M^-1 P p = 0 belongs to the symbolic-array engine (listed in evidence notes when not built); reals for floats."
            ' Added in rounds 3-4: the closed-form cotangent projection, Gram matrix and projected momentum draw for ALL dimensions n, k and every metric object satisfying the matrix contract (Engine D); cache-key injectivity; the stub system exposes constr so that a skipped retraction is visible.'
            ' Added in round 5: the norm contract rejects unset vectors (TypeError is not a ConvergenceError); frame: every projection solve receives the configured tolerances and a step leaves projection_solver_kwargs unchanged.'
            ' Added in round 6: C07\'s flow-Jacobian obligations (dh2_flow_dmom == Jacobian of the real h2_flow, also after the metric was replaced between two uses with the same time step) are imported as obligations instead of being trusted.',
}
CHECKS["C12"] = {
    "engine": "pyvc",
    "technique": "contract-based deductive verification with exceptional postconditions: fault-model contracts on every user-function call (return / NaN / inf / ValueError / LinAlgError) in the real solver and integrator source; z3",
    "design_ref": "DESIGN.md section 7 C12",
    "text": "For every call site and every iteration (loop invariants; first iteration executed from the exact entry state) of the five solvers: a normal return implies a finite error "
            "below tolerance on the returned iterate and every exceptional exit is a ConvergenceError; integrator sub-steps never continue after a failed reversibility check and step() "
            "lets only IntegratorErrors escape; NaN-induced mici.errors.LinAlgError escaping step() is reported as the known finding D13.",
    "note": "faults are not injected into the solver set-up calls on the previous (already validated) state; transitions' handling of IntegratorError / NaN energies is covered by the "
            "transition contracts when built (see evidence notes); multi-iteration chain continuation rests on C13's loop invariant."
            ' Added in rounds 3-4: sub-step errors propagate; step() raises only error kinds every transition declares; error flags by class membership incl. subclasses; contract-less loops are unrolled (bounded) and reported undecided.'
            ' Added in round 5: a NaN Hamiltonian of a new tree leaf ends the trajectory as a divergence (returned as NaN or surfaced as LinAlgError).'
            ' Added in round 6: errors raised inside ConstrainedLeapfrogIntegrator._step_b (retractions, projections) propagate unchanged.',
}
CHECKS["C09"] = {
    "engine": "pyvc + frames",
    "technique": "contract-based verification: representation invariant of the cache protocol proved preserved by every operation of the real states.py over an exhaustively enumerated abstract configuration space; static read-set / alias frame obligations on systems.py",
    "design_ref": "DESIGN.md section 7 C09",
    "text": "Inv (every non-None entry of every family member is the from-scratch value and registered under its declared dependencies) is proved to be re-established by every "
            "operation (cached call, call with auxiliary outputs, assignment, copy, read-only copy, pickle round trip, second system object) from every Inv-configuration of a 4-key / "
            "2-member universe, interpreting the real decorators and ChainState; by induction every history is transparent. Statically, every decorated system method's transitive read "
            "set is within its declared dependencies, auxiliary outputs are covered by the primary's dependencies, cached values do not alias state variables (known finding D7), and no "
            "library function mutates a state array through an alias.",
    "note": "small-model argument (keys only compared for equality); id() injective; user functions pure and returning fresh objects; static analysis tracks reads through "
            "self.<m>(state)/super() calls only."
            ' Added in rounds 3-4: cache-key injectivity, pickling leaves the live family intact, aliasing / value-comparison predicates of numpy answer both ways, functools.cache stub.'
            ' Added in round 5: no two states share a variable array (source x copy read-only flags); the library\'s own derivative methods evaluated twice at one state leave the cached gradient intact (Engine B, imported).'
            ' Added in round 6: cache keys of a clone of an already used system differ from the original\'s.',
}
CHECKS["C18"] = {
    "engine": "pyvc + frames",
    "technique": "contract-based verification with a ghost cost counter: cache-protocol cost postconditions over the enumerated configuration space of the real states.py; per-step cost contracts on the real integrators + System classes",
    "design_ref": "DESIGN.md section 7 C18",
    "text": "A valid entry costs zero user-function evaluations, a miss one, auxiliary outputs turn later requests into hits, copies carry the cache, assignments invalidate only "
            "dependants (for every abstract configuration); one leapfrog / BCSS step from a state with a valid gradient entry costs exactly #stages gradients and returns a state with a "
            "valid entry (so n steps cost n(+1)), the value returned alongside the gradient is reused, momentum refresh keeps position-dependent entries.",
    "note": "tree transitions: bound n+2 from a fresh start state is stated, not proved here; metric stub; small-model argument as in C09."
            ' Added in rounds 3-4: encapsulation frame (only states.py touches the memo tables); a memoised call leaves other entries alone; auxiliary outputs name memoised methods; aliasing predicates fork.'
            ' Added in round 5: dict.fromkeys (one shared value object) and itertools.zip_longest modelled; missing members of builtin type stand-ins are UNDECIDED, never an AttributeError of the program.'
            ' Added in round 6: np.isfinite of a user value forks both ways.',
}
CHECKS["C13"] = {
    "engine": "pyvc",
    "technique": "contract-based deductive verification: loop invariant / generic-iteration postconditions on the real _sample_chain, sequential chain loop and sample_chains stage loop (ghost row logs, callee contracts), z3",
    "design_ref": "DESIGN.md section 7 C13",
    "text": "_sample_chain is executed symbolically for a generic iteration from an arbitrary earlier state (any n_iter, any offset): every transition is applied once in order with state "
            "threading, statistics and traces are written exactly once at row sample_index+offset with this iteration's values computed from the post-iteration state, the returned state "
            "is the last one; the sequential loop and the stage loop of sample_chains are proved to pass per-chain arrays, offsets equal to the recorded iterations so far, array lengths "
            "equal to n_trace_iter, over the option space (n_process incl. None, trace_warm_up, trace function sets, adapters, memmap).",
    "note": "arrays are ghost row logs (numpy assignment / allocation / open_memmap trusted, A12); memmap<->path pytree conversion is not modelled (stubs); transitions/adapters/trace "
            "functions are contract stubs; multi-process branch only up to the choice of chain function (A14)."
            ' Added in rounds 3-4: body of _open_new_memmap; parallel collation for every pickup order; BOUNDED native rows-vs-states run with transitions that update their argument in place; loop-carried variables the contract does not describe are unknowns.'
            ' Added in round 5: trace array dtype holds the traced values exactly (float64, float32, complex, integer, boolean traces); after a stage dropped a chain the survivors keep their own iterators, generators and arrays (or sample_chains raises).'
            ' Added in round 6: interrupt scenarios of the parallel collation harness imported.',
}
CHECKS["C14"] = {
    "engine": "pyvc + frames",
    "technique": "contract-based verification with ghost generator positions: per-chain stream contract, threading invariant across stages for both chain functions (multiprocessing under the trusted contract A14), chain-order postcondition for all pickup orders",
    "design_ref": "DESIGN.md section 7 C14",
    "text": "Per-chain generators are proved to be a function of (base state, chain index); the same generator objects are threaded through all stages sequentially; for the parallel chain "
            "function the real parent and worker code is interpreted over stub queues/pool (items pickled on put, every assignment of 3 chains to workers enumerated): each chain sampled "
            "once with its own arguments, outputs in chain order, and the worker-side generator advance flows back to the parent; no unseeded randomness in the library.",
    "note": "A14 (multiprocessing semantics) and A10 (numpy generators) trusted; 'frame disjointness + A14 => schedule independence' is an informal inference; real OS scheduling is not explored; "
            "known finding D19 (base-generator draws depend on the chain count)."
            ' Added in rounds 3-4: shared-object frame (no write to self outside __init__) over adapters, transitions and integrators; generators with both jumped and a seed sequence must be derived from the state.'
            ' Added in round 5: whole bit-generator state (stream position and buffered half-word) flows back from the workers; RELATIONAL obligation over two executions of the real sample_chains + _get_per_chain_rngs with 2 and 3 chains: the stream of chain c in every stage does not depend on the chain count, and no stream is shared or handed out twice. Harness overrides are no longer cached across paths (DESIGN 13.6).'
            ' Added in round 6: chains given one repeated initial array object still get pairwise distinct state objects.',
}
CHECKS["C15"] = {
    "engine": "pyvc",
    "technique": "contract-based verification with exceptional postconditions: KeyboardInterrupt in the raises-set of every call inside the sampling loop of the real _sample_chain (one path per call site, generic iteration), plus the sequential and stage loops",
    "design_ref": "DESIGN.md section 7 C15",
    "text": "For an interrupt at any call site of any iteration: _sample_chain returns normally with the interrupt as output, the returned state is a complete chain state, rows written "
            "belong to the current row only, memmaps are flushed and the iterator context closed; the sequential loop starts no further chain; sample_chains returns immediately and "
            "normally without starting later stages or finalizing adapters on partial chain lists.",
    "note": "worker/parent interrupt propagation through multiprocessing queues under A14 only; a second interrupt during clean-up is out of scope."
            ' Added in rounds 3-4: the interrupt reaching every worker; a blocking get on an empty progress queue after all workers returned is a termination violation; memmap fill; logger call arguments are evaluated.'
            ' Added in round 5: the parent process itself receives the interrupt inside its k-th wait on the progress queue; contract of the real _ProxySequenceProgressBar.__enter__/__exit__ (queues progress tuples only).'
            ' Added in round 6: unpacking a non-iterable instance is a TypeError of the program (decided, was undecided).',
}
CHECKS["C10"] = {
    "engine": "symla+ncalg",
    "technique": "contract-based deductive verification of the real matrix classes: class invariants and per-operation postconditions view(result) == op(view(self)); (Engine D) the real code executed on typed non-commutative "
                 "polynomials over matrix atoms of SYMBOLIC dimension with contract stubs for operand matrices and LAPACK primitives, equalities discharged by rewriting with rules re-proved in Lean 4 / Mathlib; "
                 "(Engine B) the same postconditions entrywise on exact symbolic arrays at fixed shapes, decided by sympy with exact-evaluation refutation",
    "design_ref": "DESIGN.md section 7 C10, section 13 (Engine D)",
    "text": "Every matrix class and constructor option (signs, lower/upper, supplied vs lazily computed factors, implicit sizes) is instantiated with exact symbolic parameters; array, left/right "
            "products, transpose, inverse, diagonal, log|det|, eigendecomposition, square root, positive/negative scalar multiples, division and negation are compared with the dense view, "
            "recursively for derived objects (depth 2; lite second level in the quick tier) and for Matrix @ Matrix products. Loop-free code over fully symbolic inputs: each discharged "
            "obligation holds for ALL real parameter values of that shape. Engine D adds, for ALL dimensions: every method of MatrixProduct / SquareMatrixProduct / InvertibleMatrixProduct and of the three "
            "low-rank update classes (Woodbury inverse, determinant lemma, Ambikasaran square root, stored-capacitance invariant, both signs, default / given inner matrix and capacitance) verified against the "
            "interface CONTRACT of arbitrary operand matrices (modular: by induction over expression trees), and 32 leaf-class cases (identity, scaled identity, diagonal, triangular, inverse triangular, triangular "
            "factored, dense definite / square / symmetric, orthogonal, eigendecomposed) on arrays of symbolic dimension; 21 rule-table lemmas type-checked by Lean against Mathlib on every run.",
    "note": "Engine B shapes are fixed (dimension 1-3); Engine D is dimension-generic but abstracts entry-level code (diagonal(), packed-LU rescaling, block split/concatenate, SoftAbs elementwise functions stay with Engine B); "
            "its shims record invertibility / definiteness hypotheses (the library's own preconditions); the correspondence between a rule name in vf/ncalg.py and its Lean statement is by reading; LAPACK shim table, sympy and sign decisions of transcendental expressions by sampling are "
            "trusted; obligations sympy cannot simplify but that vanish at all sampled points are reported as bounded (numeric-only), never as proved; floats as reals."
            ' Added in round 5: caller-supplied upper / lower triangular factors of dense definite matrices (Engine D for all n, Engine B); half-supplied eigendecompositions in another column order; SciPy cho_solve modelled in Engine D; evidence lists obligations grouped by subject (full list in evidence_detail/C10.tsv).'
            ' Added in round 6: negative multiples of negative definite matrices stay usable as positive definite (found and repaired defect D20, fix d98e214); LAPACK overwrite_a / overwrite_b permissions modelled adversarially (operand poisoned).',
}
CHECKS["C11"] = {
    "engine": "symla",
    "technique": "contract-based verification by exact symbolic execution: the real gradient methods run on symbolic parameters and are compared with sympy's derivative of log|det view| and v^T view^-1 v (postcondition <grad, dtheta/dp> == df/dp for every parameter symbol), with path forking on symbolic branches",
    "design_ref": "DESIGN.md section 7 C11",
    "text": "All eight differentiable matrix classes with every option (both signs, both triangles, array and matrix-object factors, with/without inner matrix, any SoftAbs coefficient incl. the "
            "large-argument branch by path forking, repeated eigenvalues, tuple structure of block matrices) are checked: the reported gradients equal the symbolic derivatives for all real "
            "parameter values at the fixed shapes, have the parameter's shape, vanish outside a triangular parameter's triangle and are symmetric for symmetric-array parameters.",
    "note": "fixed shapes (dimension 2, rank-1 updates, 3 blocks); shim table, sympy differentiation/simplification trusted; reals for floats; numeric-only equalities are reported as bounded."
            ' Added in rounds 3-4: nested block parameter => nested gradient; upper-factor conventions (cho_solve shim); BOUNDED native stand-ins for dtype independence and gradient freshness (Engine B computes over the reals).'
            ' Added in round 5: blocks that are equal as matrices but built from different parameters (R, -R); negative factor diagonals; symbolic arrays hash by contents (hash_array stand-in) so that code keyed on matrix equality sees the collisions float arrays produce.'
            ' Added in round 6: SoftAbs with unregularised eigenvalues w and -w; a gradient that lets LAPACK overwrite an aliased parameter fails the next gradient\'s obligation (poisoned operand).',
}
CHECKS["C19"] = {
    "engine": "symla + frames",
    "technique": "contract-based verification: static write-effect / field-coverage frame obligations on matrices.py, operand-frame postconditions and lazy-attribute order independence by exact symbolic execution of the real classes, value-semantics postconditions per class",
    "design_ref": "DESIGN.md section 7 C19",
    "text": "Statically, all in-place statements in matrices.py write to locally allocated arrays and the sign/scalar options are covered by equality and hash; symbolically, every product, "
            "transpose, inverse, scalar multiple and square-root application leaves the caller's arrays untouched and gives the same result whether or not factors / capacitance matrices "
            "were cached before (derived-object obligations of all factor-caching classes); per class, constructor arrays are read-only, equal parameters compare and hash equal, a "
            "differing defining option implies unequal objects or equal arrays, and copy / deepcopy / pickle equal the original.",
    "note": "value-semantics clauses are exercised on numeric instances (complete over classes and listed options, sampled over values: reported as bounded); hash_array and numpy writeable "
            "flags trusted; project_onto_cotangent_space mutating its `mom` argument is a system method and outside this property."
            ' Added in rounds 3-4 (bounded, native): derived objects do not inherit cached attributes; properties identical on repeated evaluation in any order incl. partially supplied eigendecompositions; equality under colliding cached hashes.'
            ' Added in round 6: BOUNDED native: stored parameters are read-only whatever their memory layout (C, Fortran, strided); conversions with copy semantics (np.array, np.copy) do not alias the object.',
}
CHECKS["C05"] = {
    "engine": "symla+ncalg",
    "technique": "contract-based verification by exact symbolic execution of the real system classes with uninterpreted smooth model functions: postconditions value == documented formula and derivative method == sympy derivative of the value",
    "design_ref": "DESIGN.md section 7 C05",
    "text": "Euclidean, Gaussian-split, dense constrained (both density conventions), Gaussian constrained and scalar/diagonal/Cholesky/dense Riemannian systems, with every metric type and "
            "both return conventions of the user derivative functions, are executed on symbolic states: h1, h2, h equal the documented formulas and dh1_dpos, dh2_dpos, dh2_dmom, dh_dpos, "
            "dh_dmom equal the symbolic derivatives, also under repeated evaluation (cache not corrupted). Identities contain the model functions as undefined functions with Derivative "
            "atoms, so a discharged obligation holds for every smooth model and every state at dimension 2.",
    "note": "user derivative functions assumed exact (A4); SoftAbs system covered through its metric class (C10/C11) and the generic Riemannian methods; dimension 2, one constraint; "
            "equalities sympy cannot simplify are checked with random concrete model functions and reported as bounded."
            ' Added in rounds 3-4: kinetic term for all dimensions (Engine D); value-dependent branches fork with multiscale witnesses; metrics given as 2-D arrays / implicitly sized; generic RiemannianMetricSystem with a tuple-structured block metric; static log-space obligation on every log_abs_det; cache protocol imported.'
            ' Added in round 5: every Euclidean-family obligation also on a system whose metric attribute was reassigned after construction (Engine D); a Cholesky factor function with a negative diagonal entry.',
}
CHECKS["C07"] = {
    "engine": "symla+ncalg",
    "technique": "contract-based verification by exact symbolic execution of the real flow methods with symbolic time: ODE / group-law / inverse / energy postconditions and Jacobian-block postcondition for dh2_flow_dmom",
    "design_ref": "DESIGN.md section 7 C07",
    "text": "h1_flow, Euclidean and Gaussian h2_flow and dh2_flow_dmom of all tractable-flow systems and metric types (incl. the default implicit identity and a metric replaced after first use) "
            "are traced for a symbolic real time: kick and drift formulas, Hamilton's ODE by symbolic time-differentiation, Phi(s)oPhi(t)=Phi(s+t), Phi(-t)oPhi(t)=id, energy conservation, and "
            "dh2_flow_dmom equal to the Jacobian blocks of the traced flow for both signs of t.",
    "note": "reals for floats; dimension 2; trig identities by sympy; dense metrics whose eigendecomposition comes from numpy eigh are represented by the eigendecomposed class."
            ' Added in rounds 3-4: Euclidean drift, group law, inverse, energy conservation and dh2_flow_dmom for ALL dimensions (Engine D); repeated-evaluation, read-set and cache-protocol obligations imported; implicitly sized non-identity metric.'
            ' Added in round 6: np.linalg.pinv / inv modelled exactly; BOUNDED native flows and flow Jacobians incl. nearly isotropic metrics and long intervals (tolerance-guarded fast paths have no counterpart over the reals).',
}
CHECKS["C08"] = {
    "engine": "symla+ncalg+pyvc",
    "technique": "contract-based verification by exact symbolic execution of the real sample_momentum methods and momentum transitions with a contract stub for the generator (symbolic standard-normal draws)",
    "design_ref": "DESIGN.md section 7 C08",
    "text": "sample_momentum of every system class and metric type returns exactly L z for the stub generator's symbolic draws z with L L^T == metric(position) (P M P^T and J M^-1 mom == 0 for constrained systems); "
            "independent refresh assigns one such draw; partial refresh returns a mom + c n with a^2 + c^2 == 1 for symbolic c in (0,1), a fresh draw for c == 1 or missing momentum, no change and no draw for c == 0; "
            "the constructor rejects coefficients outside [0,1]. Imported: the C10 contract sqrt @ sqrt.T == matrix for every positive definite class and derived object (Engine D for all dimensions, Engine B entrywise) "
            "and the C17 obligation that the metric adapters redraw momenta under the metric the chain continues with.",
    "note": "Gaussian-law invariance follows from the proved linear-algebra postconditions by the standard facts that L z ~ N(0, L L^T) and that a p + c n with independent N(0,M) inputs and a^2+c^2=1 is N(0,M) (cited, A10); reals for floats; dimension 2; "
            "the reassigned-coefficient history is covered by the native replay and an explicit obligation.",
}
CHECKS["C03"] = {
    "engine": "symla+pyvc+ncalg",
    "technique": "contract-based verification: exact symplecticity postconditions (J^T Omega J == Omega) on the Jacobians of the real component flows traced symbolically, structural contracts (composition of flows, adjoint pairs, RATTLE form) on the real integrator steps, bounded native finite-difference check for implicit and constrained steps",
    "design_ref": "DESIGN.md section 7 C03",
    "text": "Every explicit component flow (h1_flow; Euclidean and Gaussian h2_flow; every metric type; symbolic time; uninterpreted smooth target) has an exactly symplectic Jacobian; explicit integrator steps are proved to be compositions of exactly these flows "
            "(obligations shared with C06) and whole leapfrog / BCSS steps of the real integrator are traced on a symbolic-coefficient cubic target family; implicit sub-steps are proved to be the generalised-leapfrog / implicit-midpoint equations and their adjoints "
            "(shared with C02), constrained steps to have the RATTLE form with closed-form cotangent projection (shared with C04).",
    "note": "that generalised leapfrog, implicit midpoint and RATTLE compositions are symplectic is a cited theorem (A9), not proved; for those steps the check adds a BOUNDED native finite-difference Jacobian test (labelled bounded, not counted as proved). "
            "Whole-step traces use one polynomial target family (bounded in the function class). Reals for floats; dimension 2."
            ' Added in rounds 3-4: composition / inverse closure of the symplectic group as a discharged dimension-generic lemma (Engine D); SoftAbs gradient contracts (C11) and the cache protocol (C09) imported.'
            ' Added in round 5: C05\'s dh_dpos / dh_dmom gradient obligations and the repeated-evaluation obligations are imported (the implicit midpoint rule is symplectic for a Hamiltonian vector field).',
}
CHECKS["C01"] = {
    "engine": "pyvc",
    "technique": "contract-based verification by symbolic execution of the real transition methods: loop invariants over the trajectory and doubling loops, a recursive contract for _build_tree proved by induction on depth, weakest pre-expectation treatment of `rng.uniform() < p`, additive interval functionals for tree weights; z3 with instantiated exp axioms",
    "design_ref": "DESIGN.md section 7 C01",
    "text": "Metropolis transitions: acceptance probability == min(1, exp(h0-h1)), accept / reject / error outcomes with the double direction flip, detailed balance of the involutive proposal and the orbit-level sum over start states == target weight, "
            "n_step and accept_stat equal to ghost counts, state-independent random step count. Dynamic transitions: _build_tree contract (interval tree, additive weight / momentum / acceptance sums, n_step += 2^depth, uniform progressive selection "
            "P(outer) = W_out/W, direction-independent termination decision) proved for every depth by induction; sample loop invariant (fair direction bit, doubling from the edge, biased progressive selection min(1, W_new/W_old), statistics == ghost counters); "
            "slice level uniform under the start density and slice divergence test reads only (h, log_u); the two selection lemmas.",
    "note": "orbit contract of the integrator (A6) from C02; the composition of the proved per-call contracts into stationarity of the tree kernels on an unbounded orbit is a paper lemma (A7), supported by a BOUNDED exact enumeration of the real kernels "
            "(depth <= 3 multinomial, <= 2 slice with divergence cut, Metropolis static/random with symmetric step failures) labelled bounded; multinomial invariance is claimed without divergence cuts; reals for floats; LogRepFloat by its C20 contract."
            ' Added in rounds 3-4: terminated sub-trees are discarded at every depth; returned statistics are a subset of statistic_types and the error flags name the kind of integrator error (incl. subclasses).',
}
NOT_APPLICABLE = {}
