#!/bin/sh
# usage: muttest.sh <prop> <file-under-src/mici> <python-regex-old> <new>   (scratch copy under /tmp, removed afterwards)
set -e
D=$(mktemp -d /tmp/mut.XXXXXX)
mkdir -p $D/src && cp -r /repo/src/mici $D/src/
python3 - "$D/src/mici/$2" "$3" "$4" <<'PY'
import sys,re
p,old,new=sys.argv[1:4]
s=open(p).read()
n=len(re.findall(old,s))
if n!=1: print("PATTERN MATCHES",n); sys.exit(9)
new=new.encode().decode('unicode_escape')
open(p,'w').write(re.sub(old,lambda m:new,s,count=1))
PY
cd /verif && MICI_REPO=$D ./check $1 2>&1 | grep -v WARNING | grep -v "^  " | cut -c1-300 | tail -8
rm -rf $D
